#!/usr/bin/env python3
"""Regenerate /verif/MANIFEST.json from the table below (run from /verif)."""
import json
import os

HERE = os.path.dirname(os.path.dirname(os.path.abspath(__file__)))

BASELINE = ("cd /repo && /venv/bin/python -m pytest -ra -q -p no:cacheprovider "
            "--timeout=900 --continue-on-collection-errors")

TRUSTED = ("Trusted base: the stdlib ast parser; the resolver of gfaverif/model.py "
           "(namespace, C3 MRO, class-hierarchy resolution of self-calls, the "
           "modelled post-processing of record tables); the reference tables in "
           "gfaverif/spec.py, written from the GFA specifications and the property "
           "statement. Line.EXTENSIONS is assumed empty. The check decides the "
           "named structural clauses, not the behaviour as a whole.")

CHECKS = {
    "C01": dict(
        technique="type-set agreement between sibling codec functions, "
                  "decision tables of the registry / collection / writer "
                  "functions by abstract interpretation, and syntax-tree "
                  "checks of the reader and writer (static analysis)",
        engine="CODEC+TABLE",
        design_ref="DESIGN.md section 4, C01",
        text="Partial. Decides the structural ways a valid line can be lost "
             "or flagged: (a) for each of the 27 datatype modules every class "
             "the reader (decode/unsafe_decode) can return is accepted by the "
             "writer (encode) -- otherwise to_list swallows the TypeError and "
             "writes '# INVALID'; (b) every datatype named anywhere has a "
             "codec module; (c) Gfa.lines lists every stored record exactly "
             "once for every version and storage kind (named, placeholder "
             "name, external, unnamed, custom types, split header), and "
             "_register_line / _unregister_line agree on the key; to_list "
             "emits record type, every positional field and every tag, flags "
             "(does not drop) a failing field; _split yields one H line per "
             "stored value; (d) read_file strips exactly CR and LF, to_file "
             "terminates with LF; (e) Gfa(str)/Gfa(list) hand every line to "
             "add_line. Also decided: custom records and S lines find their "
             "tags for every tag the grammar allows (blanks, punctuation) "
             "and keep a tag-shaped name positional; when a caller can select the non-validating encoders, unsafe_encode takes every class the decoders return; a stored tag spelled "
             "like a field alias is written as that tag; a path requires "
             "exactly the links between consecutive segments (none for one "
             "segment, the closing link only when n > 1 overlaps close the "
             "circle).",
        note="Undecided: equality of the written values, tag order, number "
             "spelling and the fixed point parse(write(parse(T))) on concrete "
             "documents (value level; the integer subtype table that decides "
             "the spelling of B arrays is checked under C20). Known finding: "
             "scalar JSON values. " + TRUSTED),
    "C02": dict(
        technique="interprocedural size-change effect analysis of loops over "
                  "live back-reference lists (ITER), producer/declaration "
                  "agreement of back-reference keys, and decision tables of "
                  "the connect/disconnect helpers by abstract interpretation "
                  "(static analysis)",
        engine="EFFECT+TABLE",
        design_ref="DESIGN.md sections 3.4, 3.5 and section 4, C02",
        text="Partial. Decides: (a) none of the loops/comprehensions that "
             "iterate a live back-reference list (13 today; lazy views such "
             "as reversed()/enumerate() and bound names included) has a body "
             "that can change the length of a _refs list of the list's owner "
             "or of a line found in the loop element's state -- the bug class "
             "that made rm() skip every second dependant; (b) every "
             "back-reference key that reference initialisation can file on a "
             "class (extracted by abstract evaluation of all "
             "_initialize_references and of the group item admission list) "
             "is declared by that class; (c) connect and disconnect perform "
             "their steps in the consistent order; (d) the removal helpers "
             "reach a line, an oriented line, lists of either, and turn "
             "every reference into an identifier in place; "
             "__update_reference_in_list replaces exactly the old entries "
             "and flips an orientation exactly for a complement; (e) every "
             "location a line can be stored in is named by the holder's "
             "_backreference_keys (149 cells, worst case of self-links). " 
             "Also decided: no membership test by content (`line in collection`) where the reference graph is built or taken apart (identity_membership). Segment._backreference_keys covers, over the calls made for the sides that name the segment, every dovetail list a link is filed in (per layout); back-references are removed once per reference field (or by fewer calls clearing the same locations); list updates remove exactly the old line even next to a content-equal twin.",
        note="Undecided: that lookups by current identifier succeed after "
             "arbitrary histories; run-time aliasing. The ITER rule uses the "
             "shape invariant 'a line found in the state of an element of "
             "X's back-reference list may be X'. Known finding: Gap declares "
             "no sets/paths keys. " + TRUSTED),
    "C03": dict(
        technique="decision tables (abstract interpretation) of the duplicate "
                  "search, of every _backreference_keys and of the "
                  "placeholder substitution helpers, against the locations "
                  "where placeholders are stored (static analysis)",
        engine="TABLE",
        design_ref="DESIGN.md section 4, C03",
        text="Partial. Decides the structural conditions for a placeholder to "
             "be replaced everywhere when its definition arrives: every class "
             "constructed with virtual=True is reached by _search_duplicate "
             "(links by oriented segment pair); every location where a line "
             "can be stored in a referring line is returned by that line's "
             "_backreference_keys; _substitute_virtual_line sets the owner, "
             "imports the references, unregisters the placeholder and "
             "registers the definition in that order; _import_references "
             "takes the Unknown / field-import branch correctly and re-points "
             "every referrer under every key the placeholder collected; an "
             "oriented entry flips exactly when the definition is the "
             "complement of the placeholder link.",
        note="Undecided: equality of the graphs built from concrete "
             "permutations; version inference across orders (C13). "
             + TRUSTED),
    "C04": dict(
        technique="regular-language equivalence on automata built from the "
                  "validators' regular expressions with Python re semantics, "
                  "plus decision-table extraction of the tag / cross-field / "
                  "document validators (static analysis)",
        engine="RX+TABLE+CODEC",
        design_ref="DESIGN.md section 3.7, 3.8 and section 4, C04",
        text="Partial. Decides for ALL strings (DFA equality, shortest "
             "witness on failure) that validate_encoded of each of 26 datatype "
             "modules accepts exactly the reference grammar, and that the tag "
             "splitter and tag-name test do; that every validating decode() "
             "checks the syntax before converting (so int()/float()/unhexlify "
             "leniency cannot leak in); that whatever class a decoder returns "
             "passes validate_decoded; that record arity, field datatypes and "
             "predefined tag types equal the reference table and every "
             "datatype has a complete module; exhaustive decision tables of "
             "_initialize_tag (uniqueness, predefined type, name syntax, per "
             "level), of the positional-field count check, of LN-vs-length, "
             "path list sizes and the `$`-only-on-last-position validators of "
             "E and F lines; and that Gfa.validate runs the four structural "
             "validators plus rGFA validation exactly for the rgfa dialect and "
             "is called by Gfa()/read_file at vlevel >= 1. " 
             "Also decided: the dispatch table of Alignment._from_string over the first non-digit character, with the version and valid flags forwarded to the CIGAR parser. The S-line syntax sniffing counts every grammar-valid tag as a tag and a tag-shaped name as a name; `$` on the external coordinates of a fragment is never compared with the segment length. The alignment datatypes validate a decoded CIGAR with the version of the datatype. The structural validators of Gfa.validate refuse an undefined segment, link or group item wherever it stands and accept a complete graph (interpreted).",
        note="Undecided: acceptance of whole concrete documents; the "
             "hand-written alignment scanner used by alignment_gfa2; JSON "
             "well-formedness (json.loads is a non-regular residual, only its "
             "presence is checked); reference resolution on concrete graphs. "
             "The automata are cross-checked against stdlib re on random "
             "strings at every run. Known finding: scalar JSON values. "
             + TRUSTED),
    "C05": dict(
        technique="table comparison of the dependency declarations with the "
                  "documented cascade, ITER size-change analysis of the "
                  "cascade loops, key-declaration agreement and decision "
                  "tables of the removal helpers (static analysis)",
        engine="EFFECT+TABLE",
        design_ref="DESIGN.md section 4, C05",
        text="Partial. Decides: DEPENDENT_LINES of every record class equals "
             "the documented removal cascade and is disjoint from "
             "OTHER_REFERENCES; the cascade loop and every other loop over a "
             "live back-reference list cannot skip elements (ITER); a mention "
             "of a removed line can be dropped because its key is declared by "
             "the mentioned class; disconnect performs its six steps in "
             "order; the removal helpers handle every shape of reference; "
             "every mention is re-pointed to the line object when a "
             "placeholder is replaced (so a rename is written everywhere). " 
             "Also decided: no membership test by content in the removal cascade (identity_membership). Back-references are removed once per reference field; Segment._backreference_keys covers every list a link is filed in.",
        note="Undecided: textual equality with the re-parsed model on "
             "concrete histories. Known finding: a removed gap stays listed "
             "in its set/path. " + TRUSTED),
    "C06": dict(
        technique="symbolic field maps and decision tables of the conversion "
                  "accessors and writers by abstract interpretation over "
                  "orientations, roles and enumerated lengths (static "
                  "analysis)",
        engine="TABLE",
        design_ref="DESIGN.md section 4, C06",
        text="Partial. Decides: the GFA2-style accessors of L/C lines read "
             "the right component of the coordinate pairs; the E->L/C writer "
             "puts the side with the `from` role first, keeps the alignment "
             "when sid1 is `from` and complements it otherwise, writes pos "
             "for containments, the identifier as ID tag, every tag, and "
             "refuses internal alignments; pos is the container-side begin; "
             "the interval formulas of L and C lines for every orientation "
             "and for overlap lengths 0 / partial / whole segment / "
             "reference != query, with `$` exactly on coordinates equal to "
             "the segment length; the L/C->E and S writers copy every field "
             "and tag and drop exactly the one that became positional; the "
             "default conversion yields nothing for the other version, "
             "to_version raises VersionError or returns None as requested, "
             "exactly the record types with a counterpart override it, and "
             "whole-graph conversion skips instead of raising. Also decided: "
             "a comment line has the same text under both string "
             "conversions as under str(); refused conversions; duplicate LN.",
        note="Undecided: coordinate arithmetic beyond the enumerated lengths, "
             "validity of whole converted documents at the strictest level, "
             "equivalence after there-and-back, P<->O conversion through "
             "captured paths (C17 territory). " + TRUSTED),
    "C07": dict(
        technique="exception-discipline analysis over the resolved call "
                  "graph: raise-class resolution, text taint with a "
                  "guard-fact walk of every function on the ingestion surface "
                  "(static analysis)",
        engine="EXC",
        design_ref="DESIGN.md section 4, C07",
        text="Partial. Decides, for every function reachable from the text "
             "and string-taking public API: each explicit raise constructs a "
             "gfapy.Error subclass; each index into a text-derived value, "
             "dict lookup with a text-derived key, int()/float()/json.loads()"
             "/unhexlify() of text and dereference of a possibly-None finder "
             "or match result is guarded by a dominating test, a wide-enough "
             "try, a non-empty producer or its callers; no call of a method "
             "no class defines; re-wrap sites construct error classes with a "
             "signature they all accept; bin/gfapy-validate wraps both "
             "from_file and validate and exits non-zero on gfapy.Error. Also "
             "decided: the members of the exception classes (run inside "
             "handlers) index their possibly empty argument tuple only "
             "under a guard; Writer.to_list catches every exception around "
             "each field it encodes; a regular expression is never applied "
             "to the raw identifier of a line that may be unnamed; files "
             "are decoded inside a handler; the reserved record type. At vlevel 0 set() refuses the name of a member of the line with a library error. map(int/float, text) counts as a conversion of text.",
        note="Undecided: exceptions from values of an unexpected type, text "
             "reaching a primitive through a field of a stored line (the "
             "taint does not follow object fields), RecursionError on deep "
             "structures, termination."),
    "C08": dict(
        technique="single-fault scripts over an abstract interpreter of the "
                  "mutation entry points: every collaborator that can refuse "
                  "the operation fails once at each of its call sites and the "
                  "abstract persistent state is compared before/after "
                  "(static analysis, no repository code is executed)",
        engine="TABLE",
        design_ref="DESIGN.md section 4, C08",
        text="Partial. Decides the ordering clause -- no write to the Gfa, "
             "its header or a registered line precedes a point where the "
             "operation can still be refused -- for the three version "
             "specific adders (every record type, text or line input, "
             "version cell), process_line_queue, Connection.connect, every "
             "_initialize_references override (every subset of undefined "
             "names), _substitute_virtual_line, the U/O same-identifier "
             "merge (tag values 0 and '' included), Multiline._merge / add "
             "and _set_existing_field on a connected line (the validation "
             "levels of the line and of its Gfa are independent cells).",
        note="Undecided: failures that are not explicit library errors, "
             "observational equality on concrete graphs, entry points not "
             "listed (graph operations, group item editing)."),
    "C09": dict(
        technique="who-may-call / who-writes checks on the call graph plus "
                  "decision tables of the finders, the rename path and the "
                  "not-unique handlers by abstract interpretation (static "
                  "analysis)",
        engine="TABLE+PAIR",
        design_ref="DESIGN.md section 4, C09",
        text="Partial. Decides: only connect (after _search_duplicate), the "
             "placeholder substitution (or another line method of the same "
             "shape: unregister the line it was given, then register its "
             "receiver) and the rename path insert into the "
             "registry, and the registry / fresh-name counter have no other "
             "writers; the rename path raises NotUniqueError before "
             "unregistering when the new identifier is carried by another "
             "line (decision table over free / taken / own identifier and "
             "placeholder); the set of record types stored under their name "
             "equals the set the finders search, and the duplicate search "
             "reaches the name lookup for each of them; the group merge only "
             "merges a line of the same record type (all 14 x 2 class pairs) "
             "and every other class falls through to the raising default; "
             "_register_line only raises the counter, unused_name returns its "
             "successor; the finder tables (line, segment, try_get_*). " 
             "Also decided: no line class defines __bool__/__len__, since the duplicate search is tested by truth value (lines_are_truthy); a rename onto the identifier of a placeholder line is refused. The Gfa class defines neither, since the owner of a line is truth-tested on the rename path. Assignment through the class-level accessor of a field goes through the rename path whether or not the field holds a value.",
        note="Undecided: that lookups return the right line after arbitrary "
             "histories; 'changes nothing else' on rename. Known findings: "
             "the ID tags of L and C lines are not in the searched namespace. "
             + TRUSTED),
    "C10": dict(
        technique="interprocedural may-write effect and alias analysis "
                  "(whole-program fixpoint over the syntax trees, "
                  "class-hierarchy + name-based call resolution) with a "
                  "reviewed whitelist (static analysis)",
        engine="EFFECT",
        design_ref="DESIGN.md section 3.3 and section 4, C10",
        text="Partial, strong on its clause. For each of the ~400 functions "
             "of the enumerated read-only surface (string conversion, reads, "
             "validation, clone, comparison/diff, alignment and link queries, "
             "neighbourhood/topology queries, group resolution, searches, all "
             "datatype codecs) the transitive may-write summary, computed to "
             "a fixpoint over all 731 functions, contains no write to tracked "
             "state reachable from the receiver, an argument, a module-level "
             "table or a class-level container that no function edits under "
             "its own name (a list hoisted into a class body is one object "
             "for the whole process), except five individually justified "
             "whitelisted effects "
             "(lazy decode, datatype cache, empty _refs, error flag, the "
             "sequence swap whose save/restore pairing is checked). A "
             "reachable store into receiver-reachable state is a modification "
             "by a read-only call, so the clause is necessary for the "
             "property; it covers every CIGAR, link and graph at once, where "
             "tests sample a few. Violations are reported at the store, with "
             "the read-only entry points that reach it and a call chain.",
        note="Undecided: that repeated queries return equal values (follows "
             "for effect-free deterministic code, not separately proved). "
             "Over-approximation: receivers the resolver cannot type are "
             "resolved by method name; operator overloads (+ on FieldArray) "
             "are not resolved; heap stores are effects, not points-to facts; "
             "writes to attributes that are neither in the tracked-state "
             "list nor set by any constructor of the library (e.g. a cache "
             "attribute created on first use) are not reported; the "
             "progress logger of a Gfa is not document state. " + TRUSTED),
    "C11": dict(
        technique="decision-table extraction by abstract interpretation of the "
                  "syntax tree over the complete finite domain, compared with "
                  "independent reference tables (static analysis)",
        engine="TABLE",
        design_ref="DESIGN.md section 4, C11",
        text="Partial, strong on its clause. Decides exhaustively (about 2700 "
             "table cells) that every classification function behind the "
             "traversal collections equals an independently written reference "
             "table: interval kind of an E-line side, alignment type, the "
             "collection each side of an E/L/C/G line is filed under (table "
             "function AND the reference initialiser that uses it, for distinct "
             "segments and self-links), from_end/to_end/other_end, invert, the "
             "type predicates, the GFA1 role of each side, and that the derived "
             "queries (neighbours, containers, contained, dovetails_of_end, "
             "Gfa.dovetails/containments) read the collections the reference "
             "names. A wrong cell is a graph a user can write whose edge lands "
             "on the wrong end, so each cell is a necessary condition of the "
             "property; tests sample a handful of cells. " 
             "Also decided: reference initialisers do not test membership by content before filing an edge (identity_membership).",
        note="Undecided: the contents of the collections after removals, "
             "renames and placeholder substitution (C02/C03 look at their "
             "structure); `$` correctness against real segment lengths "
             "(checked at run time by validate_positions); zero-length segments "
             "(the specification is ambiguous; cells recorded, not compared). "
             + TRUSTED),
    "C12": dict(
        technique="abstract interpretation of the syntax tree over finite "
                  "domains: code tables, symbolic field maps, and exhaustive "
                  "comparison of the link relations with a field-level "
                  "reference (static analysis)",
        engine="TABLE",
        design_ref="DESIGN.md section 4, C12",
        text="Partial. Decides, exhaustively on finite abstract domains (about "
             "28000 cells): the CIGAR complement code map equals the reference "
             "map, is an involution on M,I,D,P,=,X,H, exchanges the "
             "reference/query code sets of length_on_reference/length_on_query, "
             "reverses the order, keeps lengths, builds new Operation objects "
             "and stores nothing into the receiver; Link.complement and "
             "make_complement realise the reference field map for all "
             "orientation pairs, self-links and placeholder overlaps; "
             "is_same/is_complement/is_eql and is_compatible(_direct/"
             "_complement) equal a reference relation defined on fields (the "
             "code defines them through segment ends) for all 4096 link pairs, "
             "and store nothing; the duplicate-link path tolerates exactly the "
             "complement and searches with the complement allowed; a path "
             "records '-' exactly for a complement match. " 
             "Also decided: CIGAR.complement on alignments of 0, 1 and 2 operations; path link orientation over the whole link domain. A path does not adopt a stored link whose overlap is another alignment; two segment ends are equal exactly when they name the same segment and side, whatever object stands for the segment. ",
        note="Undecided: the laws on concrete multi-operation CIGAR values "
             "beyond the per-code table, arrival-order effects, the "
             "orientation flip on placeholder replacement "
             "(UpdateReferences). Overlap values are opaque in the relation "
             "tables. " + TRUSTED),
    "C13": dict(
        technique="decision-table extraction by abstract interpretation over "
                  "record type x version x VN x level, sibling-table agreement "
                  "and mirror comparison of the two admission functions "
                  "(static analysis)",
        engine="TABLE",
        design_ref="DESIGN.md section 4, C13",
        text="Partial. Decides on the complete finite domain (record types "
             "H,S,#,L,C,P,E,F,G,O,U,custom; Gfa version unknown/gfa1/gfa2; VN "
             "absent/1.0/2.0/3.0; vlevel 0/1; string or Line instance): the "
             "seven tables that encode record type x version agree with the "
             "specification and with each other; every branch of the version "
             "decision assigns the right version before replaying the queue, "
             "queues exactly the version-ambiguous records and only sets the "
             "guess for L/C/P; __add_line_GFA1/GFA2 refuse, with VersionError "
             "and before any merge/connect, exactly the mirrored set of "
             "inputs; the queue is appended to only in the unknown-version "
             "adder, replayed once in order after the version is fixed, then "
             "cleared; Gfa() and read_file replay after the last line; "
             "Gfa() refuses unknown version/dialect arguments. " 
             "Also decided: GFA1-only record types are refused for custom records at every level; VN values other than 1.0/2.0 are refused at vlevel > 0; a version given explicitly to Gfa() is the one the instance keeps for every dialect, and from_file hands version, dialect and vlevel to Gfa() as given.",
        note="Undecided: that the inferred version is the same for every "
             "order of a concrete document (the tables make each single "
             "decision right; their composition over arrival orders is not "
             "enumerated), the dialect (rGFA) cross-checks. " + TRUSTED),
    "C15": dict(
        technique="decision tables of multiply() and its helpers by abstract "
                  "interpretation, return-path analysis of __hash__, and "
                  "getter/setter agreement of accessor pairs (static "
                  "analysis)",
        engine="TABLE",
        design_ref="DESIGN.md section 4, C15",
        text="Weak partial. Decides: the factor dispatch of multiply (<0 "
             "refused before any effect, 1 no effect, 0 removal, >=2 divide "
             "counts -> names -> one clone per name -> optional "
             "distribution); every __hash__ returns a value on all paths; "
             "exactly KC/RC/FC are divided, on the segment and once per edge "
             "(circular edges listed twice); each edge is cloned once, the "
             "sides naming the original are re-pointed, segment and edge "
             "clones are connected; for every simple property/setter pair in "
             "the library the setter writes the expression the getter reads "
             "(the from/to accessors of E lines used for re-pointing); copy "
             "names skip identifiers in use; unknown distribution policies "
             "are refused. " 
             "Also decided: link distribution leaves every neighbour end linked to some copy and terminates without error (all neighbour lists up to 5 links, factors 2-4, also with a hairpin link listed twice on the distributed end); no line that its class makes unhashable (containments, unnamed edges) is hashed by the count division; the clone of a named edge is not connected under the original's identifier; automatic copy names avoid every identifier held by the registry, placeholders included, for each version; apply_copy_numbers multiplies each segment once by the value of the count tag and writes nothing afterwards.",
        note="Undecided: equality of the copies' neighbourhoods, which links "
             "each copy keeps under a distribution policy (an algorithmic "
             "property of _distribute_links on concrete link lists), count "
             "arithmetic on values. " + TRUSTED),
    "C16": dict(
        technique="decision tables of the counters on abstract segment "
                  "populations, structural (syntax-tree) conditions on the "
                  "traversal loops, and the ITER size-change analysis "
                  "(static analysis)",
        engine="TABLE+EFFECT",
        design_ref="DESIGN.md section 4, C16",
        text="Partial. Decides: n_dovetails / n_containments / n_internals / "
             "n_dead_ends read exactly the collections the C11 classifier "
             "files each edge type under and divide by the two "
             "back-references per edge (tables on abstract populations); the "
             "component traversal iterates dovetail collections only, cannot "
             "leave its neighbour loop early (no return/break/raise), skips "
             "visited segments with continue, records the reached segment in "
             "both sets and recurses from both ends; "
             "segment_connected_component starts from both ends; "
             "connected_components starts one traversal per unvisited "
             "segment with one shared visited set; no cascade loop can leave "
             "stale edges behind (ITER), so the counts stay right after "
             "removals; every edge is filed once per side even when both "
             "sides are the same segment end (hairpins, self-alignments), "
             "which the halving of the counters relies on.",
        note="Undecided: that the traversal computes the partition on "
             "concrete graphs (an algorithmic fact); remove_small_components. "
             + TRUSTED),
    "C18": dict(
        technique="decision tables over validation level 0..3 of the "
                  "construction, access, write and header-merge functions by "
                  "abstract interpretation; decoder class-set agreement "
                  "(static analysis)",
        engine="TABLE+CODEC",
        design_ref="DESIGN.md section 4, C18",
        text="Partial. Decides per level 0..3: construction parses with the "
             "validating decoder at >= 1 and stores text (delayed datatypes) "
             "or an unvalidated decode at 0; _set_existing_field and get "
             "validate exactly at >= 3 and store/return the same value at "
             "every level; validate_field / validate validate at every level "
             "(level 0 adds the tag-name and predefined-type checks that "
             "construction skipped); for all 27 datatypes unsafe_decode "
             "returns the same classes as decode; Multiline.add appends at "
             "every level and validates the value (or compares datatypes) at "
             ">= 2, refusing a datatype mismatch; every line the three adders "
             "build from text is constructed with the Gfa's vlevel, for every "
             "record type and version state (write-time validation at >= 2 is "
             "decided under C20). " 
             "Also decided: field_to_s validates what it writes exactly at level >= 2 for stored text and for encoded objects (write_threshold); validate_field validates the stored value itself, not a lazily decoded copy; Field._validate_gfa_field hands every class of value to the validator of its datatype (no class is accepted unasked); a tag without recorded datatype, and a tag created with set(), are validated at level 3 as the default datatype of the value. A lazy decode stores its result at every level; every write validates what is stored at the time of that write. json.dumps keeps its ASCII escaping in the J module.",
        note="Undecided: equality of the written text across levels and "
             "monotonic acceptance on concrete documents. " + TRUSTED),
    "C19": dict(
        technique="decision table of Cloning.clone over record class x field "
                  "x stored value class (abstract interpretation), with the "
                  "value classes inferred from the decoders (static analysis)",
        engine="TABLE+CODEC",
        design_ref="DESIGN.md section 4, C19",
        text="Partial, strong on its clause. For every record class, every "
             "positional field and predefined tag, every tag datatype of "
             "custom tags, and every class of value a decoder or a library "
             "setter can store there (184 cells), clone() puts into the copy a "
             "value that is not the original object unless the class is "
             "immutable, and always the string form for reference fields "
             "(connected or not); the result is the newly constructed object "
             "of the same class with the same vlevel/virtual/version, it "
             "receives no _gfa/_refs and a copy of _datatype; __eq__ compares "
             "record type, field names and, per field, values or written "
             "forms of both sides (so identifiers equal live references). A "
             "mutable value taking the 'share' action is state shared between "
             "clone and original, hence necessary. " 
             "Also decided: attributes set only by the construction from text (custom records) reach the clone as new objects; the value classes clone() shares are immutable (no mutating method, no outside assignment); after every history of set / set None / delete / accessor assignment (length <= 3, levels 0-3) that stores a dict or list in a custom tag, clone() does not share it; no function on the decoding path that may return a mutable object is memoised; the dictionary construction clone() uses validates nothing and cannot raise; register_extension lists every declared reference field in REFERENCE_FIELDS. A value class clone() shares has no mutable builtin base. A container copied shallowly shares nothing mutable (its elements are numbers).",
        note="Undecided: aliasing created after cloning, equality on concrete "
             "values. The mutable/immutable classification of value classes "
             "is in spec.py and trusted. " + TRUSTED),
    "C20": dict(
        technique="regular-language inclusion/equality (validator and "
                  "encoder-output automata), decision tables of the default "
                  "datatype and integer subtype selection on all boundary "
                  "values (static analysis)",
        engine="RX+TABLE+CODEC",
        design_ref="DESIGN.md section 4, C20",
        text="Partial. Decides: the seven tag validators accept exactly the "
             "reference grammars (all strings); the default datatype table "
             "(int/float/str/dict/int-list/float-list/mixed list/NumericArray/"
             "ByteArray/FieldArray); SUBTYPE_RANGE and the smallest-subtype "
             "table of integer_type on every pair of boundary values "
             "(2^k-1, 2^k, 2^k+1, negatives), compute_subtype and the range "
             "check of from_string; the output language of each encoder's "
             "Python primitive (str(int), repr(float), json.dumps, hex, "
             "str(NumericArray)) is included in the validated language, and "
             "the values spelled outside it (non-finite floats, empty arrays) "
             "are reported by validate_decoded; decoder classes are accepted "
             "by the encoder; field_to_s validates what it writes exactly at "
             "vlevel >= 2. " 
             "Also decided: delete() forgets the datatype of the deleted tag; classes the encoder accepts pass validate_decoded without a foreign exception. The only tag-shaped field alias is LN on GFA2 segments (reviewed table); the S-line syntax sniffing reads back every tag the library can write. compute_subtype follows the present content of an array parsed from text and then edited, and gives no foreign exception on an empty array; no member of the line classes has the shape of a tag name; a tag inherited on a group merge keeps its datatype; every write validates what is stored at the time of that write.",
        note="Undecided: decode(encode(v)) == v on concrete values (a value "
             "law). The output languages of the CPython primitives are "
             "transcribed in rules/c20.py and trusted. Known finding: scalar "
             "JSON values. " + TRUSTED),
}

NOT_APPLICABLE = {
    "C14": "maximal chains, spelled sequence and idempotence are functions of "
           "run-time graph shape and string values; no necessary structural "
           "clause in reach beyond a C02/C05 instance reported there",
    "C17": "captured path / induced set agreement with the specification is a "
           "recursive value-level computation over run-time graph shape; "
           "deciding it needs a second implementation executed on graphs "
           "(another family)",
}

NOT_YET = "check not built yet in this session (static rule under construction; see DESIGN.md)"

ALL = ["C%02d" % i for i in range(1, 21)]


def main():
    checks = []
    for pid in ALL:
        if pid not in CHECKS:
            continue
        c = CHECKS[pid]
        checks.append({
            "property_id": pid,
            "quick_cmd": "/venv/bin/python -m gfaverif check %s --tier quick" % pid,
            "thorough_cmd": "/venv/bin/python -m gfaverif check %s --tier thorough" % pid,
            "evidence_file": "/verif/evidence/%s.json" % pid,
            "replay_cmd_template": "/venv/bin/python -m gfaverif explain {path}",
            "engine": c["engine"],
            "level_claimed": {"category": "other", "text": c["text"],
                              "design_ref": c["design_ref"]},
            "level_note": c["note"],
            "technique": c["technique"],
        })
    na = []
    for pid in ALL:
        if pid in CHECKS:
            continue
        na.append({"property_id": pid,
                   "reason": NOT_APPLICABLE.get(pid, NOT_YET)})
    man = {
        "version": 1,
        "setup_cmd": "true",
        "hooks": {
            "guard": "GFAPY_VERIF",
            "enable": "no hooks: every check parses /repo's working tree with "
                      "the stdlib ast module and never imports or runs it",
            "baseline_off_cmd": BASELINE,
            "source_commits": [],
            "add_only": True,
        },
        "engines": [
            {"name": "MODEL", "path": "gfaverif/model.py",
             "serves_properties": sorted(CHECKS),
             "kind_free_text": "whole-program index: namespace, classes, C3 MRO, "
                               "record tables with import-time post-processing"},
            {"name": "EFFECT", "path": "gfaverif/effects.py",
             "serves_properties": [p for p in sorted(CHECKS)
                                   if "EFFECT" in CHECKS[p]["engine"]],
             "kind_free_text": "interprocedural may-write effect / alias "
                               "analysis with provenance chains"},
            {"name": "RX", "path": "gfaverif/rx.py",
             "serves_properties": [p for p in sorted(CHECKS)
                                   if "RX" in CHECKS[p]["engine"]],
             "kind_free_text": "regex -> NFA -> DFA with Python re semantics; "
                               "equality / inclusion with shortest witness"},
            {"name": "CODEC", "path": "gfaverif/codec.py",
             "serves_properties": [p for p in sorted(CHECKS)
                                   if "CODEC" in CHECKS[p]["engine"]],
             "kind_free_text": "accepted languages, returned classes and "
                               "accepted classes of the datatype modules"},
            {"name": "TABLE", "path": "gfaverif/tables.py",
             "serves_properties": [p for p in sorted(CHECKS)
                                   if "TABLE" in CHECKS[p]["engine"]],
             "kind_free_text": "abstract interpretation of function bodies over "
                               "finite domains (decision tables, field maps)"},
        ],
        "checks": checks,
        "notes": "Static analysis only (stdlib ast; the analysed repository is "
                 "never imported). CLI: python -m gfaverif check <id>; exit 0 "
                 "holds / 1 VIOLATION / 2 ANALYSIS-ERROR. Known findings: "
                 "/verif/known_findings.txt. See DESIGN.md.",
        "not_applicable": na,
    }
    with open(os.path.join(HERE, "MANIFEST.json"), "w") as f:
        json.dump(man, f, indent=1)
        f.write("\n")
    print("MANIFEST.json: %d checks, %d not claimed" % (len(checks), len(na)))


if __name__ == "__main__":
    main()
