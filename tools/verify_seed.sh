#!/bin/sh
# usage: verify_seed.sh <seed-dir containing patch.diff demo.py> -> prints a JSON-ish verdict
sd=$1
wt=$(mktemp -d /tmp/seedverify.XXXXXX); rmdir "$wt"
git -C /repo worktree add -q "$wt" HEAD
cd "$wt"
clean_demo=$(PYTHONPATH="$wt" timeout 300 /venv/bin/python "$sd/demo.py" >/dev/null 2>&1; echo $?)
if git apply "$sd/patch.diff" 2>/dev/null; then applied=yes; else applied=no; fi
suite=$(PYTHONPATH="$wt" timeout 900 /venv/bin/python -m pytest -q -p no:cacheprovider 2>&1 | tail -1)
failed=$(PYTHONPATH="$wt" timeout 900 /venv/bin/python -m pytest -q -p no:cacheprovider 2>&1 | grep '^FAILED' | grep -v test_stable_sequence_names | wc -l)
mut_demo=$(PYTHONPATH="$wt" timeout 300 /venv/bin/python "$sd/demo.py" >/dev/null 2>&1; echo $?)
cd /; git -C /repo worktree remove --force "$wt"
echo "seed=$sd applied=$applied clean_demo_exit=$clean_demo mutated_demo_exit=$mut_demo other_failed_tests=$failed suite='$suite'"
