#!/bin/sh
# usage: run_on_patch.sh <patch.diff> <property>...
# Applies the patch to a scratch copy of /repo's working tree (never to /repo),
# runs the quick checks of the given properties against the copy, removes it.
set -e
patch=$1; shift
d=$(mktemp -d /tmp/gfaverif_patch.XXXXXX)
trap 'rm -rf "$d"' EXIT
cp -r /repo/gfapy /repo/bin "$d"/
(cd "$d" && patch -p1 -s --no-backup-if-mismatch < "$patch") || { echo "PATCH-FAILED $patch"; exit 3; }
cd /verif
for p in "$@"; do
  out=$(/venv/bin/python -m gfaverif check "$p" --repo "$d" 2>&1) && rc=0 || rc=$?
  echo "== $p exit=$rc violations=$(printf '%s\n' "$out" | grep -c '^VIOLATION' || true)"
  printf '%s\n' "$out" | grep -A3 '^C[0-9][0-9]\.[a-z_0-9]*:' | head -${LINES_SHOWN:-8} | cut -c1-${WIDTH:-300}
  printf '%s\n' "$out" | grep '^ANALYSIS-ERROR' | head -3 | cut -c1-300
done
